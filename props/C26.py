"""C26 — the policer never drops a local copy that may be needed."""
import json
import subprocess
import vlib
from placerepl import repl_tie

META = {
    "id": "C26",
    "engine": "place",
    "design_ref": "5/C26",
    "coq_targets": ["Props/Properties_C26.vo", "Place/PolicerCheck.vo", "Place/ReplCheck.vo"],
    "coq_files": ["Place/Policer.v", "Place/PolicerProofs.v", "Place/PolicerCheck.v", "Place/Repl.v", "Place/ReplProofs.v",
                  "Place/ReplCheck.v", "Props/Properties_C26.v"],
    "theorems": ["C26_drop_safe", "C26_outside_drop_safe", "C26_lock_link_never_dropped", "C26_ec_drop_safe",
                 "C26_default_deletions_classified", "C26_replicator_bounded", "C26_replicator_bounded_any",
                 "C26_unrepaired_refuted"],
    "technique": "Coq proof (loop invariants by induction over node lists and rule lists) about a Gallina transcription of "
                 "processObject/processNodes/processECPartByRule/HandleTask + differential check of the transcription against the "
                 "real Policer and Replicator over fakes",
    "level_text": "For every placement (any number of rules, any node lists without repetition inside a list), every answer/maintenance/"
                  "replication oracle and every object type, the model of the repaired policer removes the local copy with the "
                  "redundant mark only if each rule listing the local node has at least its required number of other nodes that "
                  "were confirmed (header read OK during this check, or replication reported and accepted); outside the container "
                  "only with >=1 confirmed holder and the node in the netmap; LOCK/LINK are never removed on container nodes; an "
                  "EC part is dropped only with a confirmed other holder. Removals with the default mark are classified "
                  "(container gone / EC attributes not matching the policy). The model is tied to the source on every run by "
                  "running the real Policer.processObject and the real Replicator.HandleTask over fakes on enumerated and "
                  "random placements and comparing HEAD order, tasks, sends, reported successes and deletions; the real HandleTask is also "
                  "run on directly given tasks of every kind (address only / object carried, local node among the targets, quantity 0..len+1) "
                  "against Place/Repl.v handle_task_any and the bound of C26_replicator_bounded_any.",
    "level_note": "Trusted: Coq kernel + vm_compute; hand-written model Place/Policer.v (tied by the differential check only, bounded "
                  "sampling: all single-rule placements with <=2 (quick) / <=3 (thorough) remote nodes x answers x flags x replication "
                  "outcomes (stored / maintenance status / other failure status / transport failure / unreachable), plus random 1-2 REP rules / 0-2 EC rules with <=5-6 nodes); Go harness fakes (network, header reads, "
                  "transport, local storage recording Delete calls); Python driver. partial: context cancellation, logging/metrics, "
                  "EC attribute decoding failures and checkECParts (recreation of lost EC parts, never deletes) are not modelled; "
                  "answers are fixed per node within one check; node hash collisions are excluded.",
    "trusted_base": ["Coq 8.16.1 kernel, vm_compute", "models Place/Policer.v, Place/Repl.v hand-written, tied by differential check",
                     "harness/cmd/place, harness/hooks/pkg/services/{policer,replicator}/zz_verif_place_*.go, lib/vlib.py, lib/placerepl.py"],
    "assumptions": ["GetNodesForObject contract: len(nodeLists) = len(repRules)+len(ecRules), no node repeated inside one list",
                    "distinct nodes have distinct netmap.NodeInfo.Hash()",
                    "context is not cancelled during the check; HEAD answer of a node does not change within one processObject call "
                    "(the answer to the replication request is independent of the HEAD answer)"],
}


def coq_case(c):
    o = c["obs"]
    net = c["net"]
    if net["k"] == 0:
        nets = "NetNotFound"
    elif net["k"] == 1:
        nets = "NetErr"
    else:
        nets = "(NetOk %s %s %s)" % (
            vlib.coq_list(net["nn"], vlib.coq_list), vlib.coq_list(net["rep"]),
            vlib.coq_list(net["ecr"], lambda r: "(%d, %d)" % (r[0], r[1])))
    ec = "None" if c["ec"] is None else "(Some (%d, %d))" % (c["ec"][0], c["ec"][1])
    return "(mkCase %d %s %s %s %s %s %d %s %d %s %s %s %s %s %s %s %s)" % (
        c["local"], vlib.coq_bool(c["innm"]), vlib.coq_list(c["mflag"]),
        vlib.coq_list(c["ans"], lambda a: "(%d, %d)" % (a[0], a[1])),
        vlib.coq_list(c["rep"], lambda a: "(%d, %d)" % (a[0], a[1])),
        vlib.coq_bool(c["readable"]), c["ty"], ec, c["shards"], nets,
        vlib.coq_list(o["heads"]), vlib.coq_list(o["tasks"], lambda t: "(%d, %s)" % (t["q"], vlib.coq_list(t["nodes"]))),
        vlib.coq_list(o["sends"]), vlib.coq_list(o["succ"]), vlib.coq_list(o["dels"]),
        vlib.coq_bool(o["ds"]), vlib.coq_bool(o["panic"]))


PRELUDE = ("From NV Require Import Place.Policer Place.PolicerCheck.\n"
           "From Coq Require Import List. Import ListNotations.\n")


def evaluate(ctx, cases, fx="true"):
    """returns (bad_model, bad_ref) index sets, or None when coqc failed"""
    bad_model, bad_ref = set(), set()
    # coqc start-up is expensive here: at most one job per core
    CH = max(100, min(900, -(-len(cases) // vlib.NCPU)))
    jobs, offs = [], []
    for off in range(0, len(cases), CH):
        lit = vlib.coq_list(cases[off:off + CH], coq_case)
        jobs.append(("cases", PRELUDE + "Definition cases : list pcase := %s.\n" % lit,
                     {"model": "model_mismatches %s cases" % fx, "ref": "ref_mismatches cases"}))
        offs.append(off)
    for off, res in zip(offs, ctx.coq_eval_many(jobs)):
        if res is None:
            return None
        bad_model |= {off + i for i in res["model"]}
        bad_ref |= {off + i for i in res["ref"]}
    return bad_model, bad_ref


def strip(c):
    return {k: v for k, v in c.items() if k not in ("obs", "src")}


def rerun(ctx, binp, cases):
    inp = "".join(json.dumps(strip(c)) + "\n" for c in cases)
    return ctx.run_json([binp, "policer-replay"], input=inp)


def minimise(ctx, binp, c, kind):
    """drop nodes / rules / flags while the case still fails the same comparison"""
    def fails(x):
        out = rerun(ctx, binp, [x])
        if not out:
            return False
        r = evaluate(ctx, out)
        return r is not None and bool(r[0] if kind == "model" else r[1])
    cur = json.loads(json.dumps(strip(c)))
    budget = 6
    changed = True
    while changed and budget > 0:
        changed = False
        cands = []
        for key in ("mflag", "rep", "ans"):
            for i in range(len(cur[key])):
                x = json.loads(json.dumps(cur)); del x[key][i]; cands.append(x)
        if cur["net"]["k"] == 2:
            for li, l in enumerate(cur["net"]["nn"]):
                for i in range(len(l)):
                    if len(l) > 1:
                        x = json.loads(json.dumps(cur)); del x["net"]["nn"][li][i]; cands.append(x)
        for x in cands:
            if budget <= 0:
                break
            budget -= 1
            if fails(x):
                cur, changed = x, True
                break
    return cur


def classify(c):
    o = c["obs"]
    return (c["ty"], c["ec"] is not None, c["net"]["k"], len(c["net"]["nn"]), tuple(o["dels"]), o["ds"],
            len(o["tasks"]), len(o["succ"]), len(o["heads"]))


def run(ctx):
    ctx.prove()
    model = ctx.model_ready(["Place/PolicerCheck.vo", "Place/ReplCheck.vo"])
    binp = ctx.go_build()
    rp = json.load(open(ctx.replay)) if ctx.replay else None
    if rp is not None:
        src = [v["case"] for v in rp.get("violations", []) if "case" in v]
        cases = rerun(ctx, binp, src)
    else:
        cases = ctx.run_json([binp, "policer"])
    if not model:
        ctx.tie(False)
        return
    # the replicator on directly given tasks (object carried, local node among the targets)
    repl_tie(ctx, binp, None if rp is None else [v["repl_case"] for v in rp.get("violations", []) if "repl_case" in v])
    res = evaluate(ctx, cases)
    if res is None:
        ctx.tie(False)
        ctx.tie(False)
        return
    bad_model, bad_ref = res
    ctx.tie(not bad_model)   # implementation = model (HEAD order, tasks, sends, successes, deletions)
    ctx.tie(not bad_ref)     # implementation satisfies the theorems' right-hand sides
    reported = 0
    for i in sorted(bad_ref) + sorted(bad_model - bad_ref):
        if reported >= 6:
            break
        kind = "ref" if i in bad_ref else "model"
        c = cases[i]
        small = minimise(ctx, binp, c, kind) if reported < 1 else strip(c)
        out = rerun(ctx, binp, [small])
        ctx.violation({"case": small, "impl_observed": out[0]["obs"] if out else c["obs"],
                       "disagrees_with": "reference: removal of the local copy without enough confirmed holders / LOCK-LINK removed / "
                                         "replicator over-reporting" if kind == "ref" else "model Place/Policer.v (process_object true)",
                       "theorems": META["theorems"]})
        reported += 1
    dropped = [c for c in cases if 1 in c["obs"]["dels"]]
    ctx.cov.update({
        "evaluations": len(cases),
        "distinct_nontrivial": len({json.dumps(strip(c), sort_keys=True) for c in cases
                                    if c["net"]["k"] == 2 and (c["obs"]["heads"] or c["obs"]["dels"])}),
        "rule": "enumerated: every single-rule REP placement with <=2 (quick) / <=3 (thorough) remote nodes, local node at any position or "
                "absent, x per-node behaviour vector (flagged in the netmap | HEAD has / maintenance / error | HEAD not-found x every "
                "replication outcome: stored, maintenance status, other failure status, transport failure, unreachable) x REP 1-2 x "
                "REGULAR/LOCK; every EC part of a 2+1 rule over two remote nodes and the local node at any position x the same "
                "per-node behaviours; random: per node an independent replication outcome of the same five; 0-2 REP rules (1-5 nodes, overlapping lists) + 0-2 EC rules, all four object types, EC parts with "
                "valid/invalid indexes, missing container, unreadable local object, 0-3 shard copies. non-trivial = placement available and "
                "at least one HEAD or deletion happened; distinct by full input",
        "samples": [cases[0], cases[len(cases) // 2], cases[-1]] if cases else [],
        "traces_validated_against_impl": len(cases),
        "hist_source": hist(cases, lambda c: c["src"]),
        "hist_type": hist(cases, lambda c: ["REGULAR", "TOMBSTONE", "LOCK", "LINK"][c["ty"]]),
        "hist_ec_part": hist(cases, lambda c: "ec-part" if c["ec"] is not None else "whole"),
        "hist_rules": hist(cases, lambda c: "rep%d+ec%d" % (len(c["net"]["rep"]), len(c["net"]["ecr"]))),
        "hist_deletions": hist(cases, lambda c: "/".join(["default", "redundant"][d] for d in c["obs"]["dels"]) or "none"),
        "hist_local_listed": hist(cases, lambda c: "listed" if any(c["local"] in l for l in c["net"]["nn"]) else "outside"),
        "hist_answers": hist([a for c in cases for a in c["ans"]], lambda a: ["has", "notfound", "maintenance", "error"][a[1]]),
        # what the nodes that were actually sent / about to be sent a replica did with the request
        "hist_replication_outcome_of_task_candidates": hist(
            [rep_outcome(c, n) for c in cases for t in c["obs"]["tasks"] for n in t["nodes"] if n != c["local"]],
            lambda o: ["stored", "maintenance-status", "other-failure-status", "transport-failure", "unreachable"][o]),
        "cases_candidate_answers_replication_with_maintenance": sum(
            1 for c in cases if any(rep_outcome(c, n) == 1 for n in c["obs"]["sends"])),
        "cases_ec_part_candidate_replication_refused": sum(
            1 for c in cases if c["ec"] is not None and c["obs"]["sends"] and not c["obs"]["succ"]),
        "redundant_drops_checked": len(dropped),
        "tasks_observed": sum(len(c["obs"]["tasks"]) for c in cases),
        "distinct_observable_classes": len({classify(c) for c in cases}),
    })


def rep_outcome(c, n):
    for a in c["rep"]:
        if a[0] == n:
            return a[1]
    return 3


def hist(items, f):
    h = {}
    for x in items:
        k = f(x)
        h[k] = h.get(k, 0) + 1
    return h
