"""C43 — shard behaviour always matches its reported mode."""
import json
import os
import vlib

KINDS = ["SetMode", "handleMetabaseFailure", "Put", "Get", "Delete", "Exists", "List", "FlushWriteCache"]
MODES = ["read-write", "read-only", "degraded", "degraded-read-only"]
MD = ["RW", "RO", "DG", "DGRO"]
FAULTS = ["none", "write-cache openStore", "blobstor Close", "blobstor Open", "blobstor Init", "metabase Open"]
FL = ["FNone", "FWc", "FBlobClose", "FBlobOpen", "FBlobInit", "FMbOpen"]
KEY = "failed-switch-partial-transition"

META = {
    "id": "C43",
    "engine": "shard",
    "design_ref": "5/C43",
    "coq_targets": ["Props/Properties_C43.vo", "Shard/Mode43Check.vo"],
    "coq_files": ["Gen/ShardModeConsts.v", "Shard/ROMode.v", "Shard/Mode43.v", "Shard/Mode43Proofs.v", "Shard/Mode43Check.v", "Props/Properties_C43.v"],
    "theorems": ["C43_consistent_partial", "C43_consistent_refuted", "C43_switch_success_consistent", "C43_back_to_rw", "C43_contents_intact",
                 "C43_reported_mode", "C43_no_crash", "C43_failed_switch_recoverable"],
    "technique": "Coq proof (invariants of the three component switches, induction over histories of mode switches with one injected failure each, "
                 "metabase-failure fallbacks, operations and background flushes) about a transcription of Shard.setMode / setModeStorage / "
                 "handleMetabaseFailure, metabase and write-cache SetMode and of what every operation consults (reported mode first, then each "
                 "component's own mode); tied on every run by driving real shards (with and without write-cache) through scripted and random "
                 "sequences of switches with real component failures (metabase path turned into a directory, failing common.Storage wrapper, "
                 "write-cache path turned into a file), comparing after EVERY step the result class, the reported mode, the mode of every component "
                 "(metabase db.mode + bolt handle, FSTree read-only flags, cache.mode) and the location of every object with the model, and the "
                 "result class with the mode table of the reported mode; final switch to read-write and byte-exact read-back; mode bits regenerated.",
    "level_text": "C43_consistent_partial: for every history, if the most recent mode switch succeeded (or none happened) every operation answers "
                  "exactly as the reported mode allows. C43_consistent_refuted: the unrestricted statement is false (a switch failing at the "
                  "metabase leaves the shard reporting read-write with a read-only storage). C43_back_to_rw / C43_contents_intact: after ANY "
                  "history a successful SetMode(read-write) leaves every component read-write, every operation accepted, and no mode switch "
                  "(successful or not) removes an object or a metadata record. C43_no_crash: no reachable state makes an operation dereference a "
                  "closed metabase. C43_failed_switch_recoverable: from any reachable state a fault-free switch to a mode with a metabase succeeds.",
    "level_note": "partial: clause 1 of the property is refuted in general and proved only for histories whose last switch succeeded; the excluded "
                  "class (last_switch_failed) is the documented behaviour of docs/shard-modes.md and is listed as a known finding. Two defects of "
                  "that class were repaired in /repo (storage skipped on retry, nil-pointer crash on a closed metabase) and the model is the "
                  "repaired code. Modelled, not verified: component internals below their mode checks (bbolt, FSTree), goroutine scheduling of the "
                  "write-cache flush workers (the model has the background flush as an explicit environment step; the tie accepts an unexplained "
                  "move of objects only as that step), metabase Close failures (bbolt Close cannot be made to fail), Reload (SIGHUP) path, "
                  "Inhume/Revive/GC operations (their guards are C14's table). Objects stored in a degraded mode have no metadata by design and "
                  "are read back with skipMeta.",
    "trusted_base": ["Coq 8.16.1 kernel, vm_compute", "model Shard/Mode43.v hand-written, tied by differential check after every step",
                     "reference = mode table Shard/ROMode.v guard (C14)", "harness/cmd/shard/c43run.go, hooks zz_verif_c43_*.go (read-only accessors), lib/vlib.py"],
    "assumptions": ["a failing component call fails before changing the component (Close/Open of the storage wrapper, bbolt.Open, MkdirAll of the cache path); "
                    "a failing storage Init leaves the flag set by the preceding Open",
                    "metabase Close does not fail", "Delete is applied to objects that have metadata (others: no effect)"],
}


def coq_step(s):
    k = s["k"]
    if k == 0:
        return "SSet %s %s" % (MD[s["m"]], FL[s["f"]])
    if k == 1:
        return "SHmf %s %s" % (FL[s["f"]], FL[s["f"]])
    if k == 6:
        return "SList"
    if k == 7:
        return "SFlush"
    return "%s %d" % ({2: "SPut", 3: "SGet", 4: "SDel", 5: "SExists"}[k], s["id"])


def coq_obs(s):
    return "mkObs %d %s %s %s %s %s %s %d %s %s" % (
        s["cls"], vlib.coq_bool(s["found"]), vlib.coq_N(s["rep"]), vlib.coq_N(s["wc_md"]), vlib.coq_bool(s["wc_ro"]),
        vlib.coq_bool(s["blob_ro"]), vlib.coq_N(s["mb_md"]), s["mb_open"], vlib.coq_list(s["wc_set"]), vlib.coq_list(s["blob_set"]))


def coq_case(c):
    return "(mkCase %s %s)" % (vlib.coq_bool(c["wc"]), vlib.coq_list(c["steps"], lambda s: "(%s, %s)" % (coq_step(s), coq_obs(s))))


def show(s):
    d = {"op": KINDS[s["k"]], "class": s["cls"], "reported": s["rep"]}
    if s["k"] == 0:
        d["target"] = MODES[s["m"]]
    if s["k"] in (0, 1) and s["f"]:
        d["failing"] = FAULTS[s["f"]]
    if s["k"] in (2, 3, 4, 5):
        d["obj"] = s["id"]
    if s["k"] in (3, 5):
        d["found"] = s["found"]
    return d


PRELUDE = ("From NV Require Import Shard.Mode43 Shard.Mode43Check.\nFrom Coq Require Import List NArith. Import ListNotations.\n"
           "Definition cases : list case := %s.\n")


def run(ctx):
    binp = ctx.go_build()
    k = ctx.run_json([binp, "consts"])[0]
    vlib.write_if_changed(os.path.join(vlib.COQ, "Gen", "ShardModeConsts.v"),
                          "(* GENERATED by props/C14.py from the running harness (`shard consts`): shard/mode bit flags. Do not edit. *)\n"
                          "From Coq Require Import NArith.\nDefinition mode_read_only_bit : N := %d%%N.\nDefinition mode_degraded_bit : N := %d%%N.\n"
                          % (k["mode_read_only"], k["mode_degraded"]))
    ctx.prove()
    model = ctx.model_ready(["Shard/Mode43Check.vo"])
    n = 40 if ctx.tier == "quick" else 600
    if ctx.replay:
        rp = json.load(open(ctx.replay))
        cases = []
        for v in rp.get("violations", []):
            if "case_id" in v:
                cases += ctx.run_json([binp, "c43", str(v.get("n", n)), str(v["case_id"])], env={"VERIF_SEED": str(rp.get("seed", ctx.seed))})
    else:
        cases = ctx.run_json([binp, "c43", str(n)], timeout=1500)
    if not model or not cases:
        ctx.tie(False)
        return
    CH = 10 if ctx.tier == "quick" else 40
    chunks = [cases[i:i + CH] for i in range(0, len(cases), CH)]
    results = ctx.coq_eval_many([("cases", PRELUDE % vlib.coq_list(ch, coq_case),
                                  {"model": "model_mismatches cases", "ref": "ref_mismatches cases", "known": "known_class cases"}) for ch in chunks])
    if any(r is None for r in results):
        ctx.tie(False)
        return
    model_bad, ref_bad, known = [], [], set()
    for ci, r in enumerate(results):
        def pairs(xs):
            return [(ci * CH + xs[q], xs[q + 1]) for q in range(0, len(xs) - 1, 2)]
        model_bad += pairs(r["model"])
        ref_bad += pairs(r["ref"])
        known |= set(pairs(r["known"]))
    # tie 1: the model predicts every observable of every step
    ctx.tie(not model_bad)
    for (i, j) in model_bad[:5]:
        c = cases[i]
        ctx.violation({"case_id": c["id"], "n": n, "write_cache": c["wc"], "disagrees_with": "model (coq/Shard/Mode43.v)", "first_disagreeing_step": j,
                       "steps": [show(s) for s in c["steps"][:j + 1]], "observed": c["steps"][j]})
    # tie 2: every step answers as the REPORTED mode allows (reference). Disagreements of OPERATIONS in the excluded class of
    # C43_consistent_partial (the last switch before the step failed) are the known finding; a crash or a switch that
    # misreports the mode is never excused
    unknown = [(i, j) for (i, j) in ref_bad
               if (i, j) not in known or cases[i]["steps"][j]["cls"] == 9 or cases[i]["steps"][j]["k"] in (0, 1)]
    ctx.tie(not unknown)
    seen = set()
    for (i, j) in ref_bad:
        c = cases[i]
        st = c["steps"]
        # minimal input: the last failed switch and the operation (everything else dropped)
        lastsw = max([q for q in range(j) if st[q]["k"] in (0, 1)], default=None)
        obj = {"case_id": c["id"], "n": n, "write_cache": c["wc"], "step": j,
               "failed_switch": show(st[lastsw]) if lastsw is not None else None, "operation": show(st[j]),
               "reported_mode": st[j]["rep"], "allowed_by_reported_mode": "differs (see class)", "steps": [show(s) for s in st[:j + 1]]}
        if (i, j) in unknown:
            if len(seen) < 10:
                ctx.violation(obj)
                seen.add((i, j))
        else:
            ctx.violation(obj, key=KEY)
    # tie 3: final switch to read-write succeeds, reports read-write, and every stored object reads back intact
    bad_final = [c for c in cases if not c["final_switch_ok"] or c["final_rep"] != k["mode_read_write"] or c["lost"] or c["lost_raw"]
                 or any(s.get("bad_data") for s in c["steps"])]
    ctx.tie(not bad_final)
    for c in bad_final[:5]:
        ctx.violation({"case_id": c["id"], "n": n, "write_cache": c["wc"], "final_switch_ok": c["final_switch_ok"], "final_reported": c["final_rep"],
                       "objects_not_read_back": c["lost"], "degraded_objects_not_intact": c["lost_raw"], "steps": [show(s) for s in c["steps"]]})
    steps = [s for c in cases for s in c["steps"]]
    hist_op, hist_fault, hist_target, hist_cls = {}, {}, {}, {}
    for s in steps:
        hist_op[KINDS[s["k"]]] = hist_op.get(KINDS[s["k"]], 0) + 1
        hist_cls[str(s["cls"])] = hist_cls.get(str(s["cls"]), 0) + 1
        if s["k"] in (0, 1):
            hist_fault[FAULTS[s["f"]]] = hist_fault.get(FAULTS[s["f"]], 0) + 1
        if s["k"] == 0:
            hist_target[MODES[s["m"]]] = hist_target.get(MODES[s["m"]], 0) + 1
    failed_sw = sum(1 for s in steps if s["k"] in (0, 1) and s["cls"] != 0)
    ctx.cov.update({
        "evaluations": len(steps),
        "distinct_nontrivial": len({(c["wc"], s["k"], s["m"], s["f"], s["cls"], s["rep"], s["wc_md"], s["wc_ro"], s["blob_ro"], s["mb_md"], s["mb_open"])
                                    for c in cases for s in c["steps"] if s["k"] in (0, 1) or s["cls"] != 0 or s["rep"] != 0}),
        "rule": "per case: real shard (odd cases with write-cache), 6 scripted sequences (the probe of the recorded finding, failing storage Init/Open, "
                "metabase-failure path, write-cache failure) then random ones of 14-25 steps: SetMode to one of the 4 modes (2/5 with one failing "
                "component call out of 5 kinds), handleMetabaseFailure, Put of a fresh object, Get/Exists/Delete of an object of the case, List, "
                "FlushWriteCache; after every step: result class, reported mode, all component modes, object locations; then SetMode(read-write) "
                "and read-back of every stored object. evaluations = steps; non-trivial = a mode switch, or an operation that was refused, or an operation "
                "under a reported mode other than read-write; distinct by (write-cache, step kind, target, fault, class, reported and all component modes after)",
        "samples": [{"wc": c["wc"], "steps": [show(s) for s in c["steps"]]} for c in cases[:2]],
        "traces_validated_against_impl": len(cases),
        "hist_step": hist_op, "hist_fault": hist_fault, "hist_target_mode": hist_target, "hist_result_class": hist_cls,
        "failed_switches": failed_sw,
        "steps_in_excluded_class": len(known),
        "reference_disagreements_in_excluded_class": len(ref_bad) - len(unknown),
        "objects_read_back": sum(c["live"] + c["raw"] for c in cases),
        "cases_with_write_cache": sum(1 for c in cases if c["wc"]),
    })
