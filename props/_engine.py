"""Shared helpers of the engine family plug-ins (C20, C08, C19): harness JSON -> Coq literals."""
import vlib

PRELUDE = ("From NV Require Import Engine.Model Engine.Spec Engine.Check.\n"
           "From Coq Require Import List NArith. Import ListNotations.\nLocal Open Scope N_scope.\n")


def nat_list(xs):
    return "[" + "; ".join("%d%%nat" % x for x in (xs or [])) + "]"


def n_list(xs):
    return "[" + "; ".join("%d" % x for x in (xs or [])) + "]"


def b(x):
    return "true" if x else "false"


def coq_rec(o):
    k = {0: "KReg", 1: "(KTS %d)" % o["target"], 2: "(KLock %d)" % o["target"]}[o["kind"]]
    e = "None" if o["exp"] < 0 else "(Some %d)" % o["exp"]
    return "(MRec %s %s)" % (k, e)


def coq_op(o):
    t = o["op"]
    i = o.get("i", 0)
    a = o.get("a", 0)
    bb = o.get("b", 0)
    if t == "put":
        return "(OPut %d%%nat %s %s %s)" % (i, nat_list(o.get("ord")), nat_list(o.get("ordp")), nat_list(o.get("ordb")))
    if t in ("get", "getb", "gets"):   # Get / GetBytes / GetStream: one shard scan (StorageEngine.get)
        return "(OGet %d%%nat %s)" % (i, nat_list(o.get("ord")))
    if t == "head":
        return "(OHead %d%%nat %s)" % (i, nat_list(o.get("ord")))
    if t == "del":
        return "(ODel %d%%nat %s %s)" % (i, b(a == 1), nat_list(o.get("ord")))
    if t == "drop":
        return "(ODrop %d%%nat %s)" % (i, nat_list(o.get("ord")))
    if t == "mode":
        return "(OMode %d%%nat %s %s %s)" % (i, b(a & 1), b(a & 2), b(bb))
    if t == "fault":
        return "(OFault %d%%nat %s %s)" % (i, b(a), b(bb))
    if t == "epoch":
        return "(OEpoch %d)" % a
    if t == "gc":
        return "(OGC %d%%nat)" % i
    if t == "addshard":
        return "OAddShard"
    raise ValueError("unknown op " + t)


def coq_obs(o):
    return "(Obs %d %d %s %s)" % (o["res"], o["tag"], n_list(o["modes"]), n_list(o["errs"]))


def coq_hist(h, op_fn=coq_op):
    ops = "[" + ";\n  ".join("(%s, %s)" % (op_fn(o), coq_obs(o)) for o in h["ops"]) + "]"
    return "(%d%%nat, %d, %s, %s)" % (h["n"], h["thr"], "[" + "; ".join(coq_rec(o) for o in h["objs"]) + "]", ops)


def hists_def(hs, op_fn=coq_op, name="cases"):
    return "Definition %s : list hist := [\n%s\n].\n" % (name, ";\n".join(coq_hist(h, op_fn) for h in hs))


def decode(xs):
    """[hist*1000 + op] -> [(hist, op)]"""
    return [(x // 1000, x % 1000) for x in xs]


# ---- C20 histories with data loss (Engine/Check20.v) ----
PRELUDE20 = ("From NV Require Import Engine.Model Engine.Spec Engine.Check Engine.Check20.\n"
             "From Coq Require Import List NArith. Import ListNotations.\nLocal Open Scope N_scope.\n")


def coq_op20(o):
    if o["op"] == "lose":
        return "(OLose %d%%nat %d%%nat)" % (o["i"], o["a"])
    return "(E20 %s)" % coq_op(o)


def hists20_def(hs, name="cases"):
    return "Definition %s : list hist20 := [\n%s\n].\n" % (name, ";\n".join(coq_hist(h, coq_op20) for h in hs))


# ---- C08 histories (Engine/Check8.v) ----
PRELUDE8 = ("From NV Require Import Engine.Model Engine.Spec Engine.Check Engine.Gc Engine.Check8.\n"
            "From Coq Require Import List NArith. Import ListNotations.\nLocal Open Scope N_scope.\n")


def coq_op8(o):
    t = o["op"]
    if t == "newepoch":
        return "(ONewEpoch %d)" % o["a"]
    if t == "gcx":
        n = len(o["modes"])
        flat = o.get("ord") or []
        ords = [flat[k:k + n] for k in range(0, len(flat), n)]
        return "(OGcx %d%%nat %s %s)" % (o["i"], n_list(o.get("extra")), "[" + "; ".join(nat_list(x) for x in ords) + "]")
    return "(O8 %s)" % coq_op(o)


def coq_hist8(h):
    ops = "[" + ";\n  ".join("(%s, %s)" % (coq_op8(o), coq_obs(o)) for o in h["ops"]) + "]"
    return "(%d%%nat, %d, %s, %s, %s)" % (h["n"], h["thr"], "[" + "; ".join(coq_rec(o) for o in h["objs"]) + "]",
                                      n_list(h.get("rank") or list(range(len(h["objs"])))), ops)


def hists8_def(hs, name="cases"):
    return "Definition %s : list hist8 := [\n%s\n].\n" % (name, ";\n".join(coq_hist8(h) for h in hs))
