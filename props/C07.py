"""C07 — a live lock protects its object from tombstones, expiry and garbage collection (shard level)."""
import importlib.util
import json
import os

import vlib

_spec = importlib.util.spec_from_file_location("_gc", os.path.join(os.path.dirname(os.path.abspath(__file__)), "_gc.py"))
G = importlib.util.module_from_spec(_spec)
_spec.loader.exec_module(G)

C07_SECTIONS = {51, 52, 53, 54, 55}

COQ_FILES = ["Gen/MetaConsts.v", "Meta/SMap.v", "Meta/Model.v", "Meta/Spec.v", "Meta/Check.v", "Meta/SMapProofs.v",
             "Meta/StatusProofs.v", "Meta/WfProofs.v", "Meta/TypedProofs.v", "Meta/ViewProofs.v",
             "GC/Model.v", "GC/Spec.v", "GC/Check.v", "GC/Lemmas.v", "GC/C07Proofs.v", "Props/Properties_C07.v"]

META = {
    "id": "C07",
    "engine": "gc",
    "design_ref": "5/C07",
    "coq_targets": ["Props/Properties_C07.vo", "GC/Check.vo"],
    "coq_files": COQ_FILES,
    "theorems": ["C07_tombstone_rejected", "C07_never_expired_or_removed", "C07_gc_pass_keeps", "C07_gc_keeps",
                 "C07_lock_after_tombstone_rejected", "C07_lock_not_tombstonable"],
    "technique": "Coq proof over all well-formed shard states / all sequences of GC passes and epoch changes (induction over the "
                 "sequence, per-pass invariant 'no delete list of the pass contains a protected unmarked address') on a Gallina model "
                 "of Shard.Put / deleteObjs / removeGarbage / collectExpiredObjects / engine.processExpiredObjects built on the metabase "
                 "model of C01 + differential correspondence with a real engine holding one real shard (fstree + bbolt) + the theorems' "
                 "right-hand sides evaluated as executable oracles on every step",
    "level_text": "For every shard state whose metabase part is well-formed and holds only objects without parent/split/EC fields, and "
                  "every object x of a non-removed container with a LOCK that is stored, unexpired, not tombstoned and not garbage-marked: "
                  "(1) Shard.Put of any tombstone for x changes neither metadata nor GC epochs nor the data of any other address, and "
                  "answers 'locked' whenever the tombstone's own ID passes the preliminary checks; (2) Exists/Get/Shard.Get never answer "
                  "'expired' or 'already removed' for x and IsLocked is true; (3) along ANY sequence of GC passes (any batch size) and epoch "
                  "changes before each of which the lock is still live for both shard clocks, if x carried no garbage mark at the start, "
                  "the metadata entry, garbage key, container mark and stored data of x are exactly unchanged; (4) a LOCK for a tombstoned "
                  "object is refused (already removed / lock of non-regular) without effect — full strength since repair 497eb4c; (5) a "
                  "tombstone for a stored LOCK object is refused (lock removal) without effect. Lock/tombstone arriving concurrently = either "
                  "order of two bbolt transactions: (1) and (4) hold in every state, hence after either one was accepted. The model is tied "
                  "to the Go code on every run: same histories on a real engine with one real shard, comparison after EVERY operation of the "
                  "put result class, the dumped metabase buckets, the GC epochs and Shard.Get / IsLocked / blob presence of all 16 addresses.",
    "level_note": "partial: real concurrent arrival of lock and tombstone is reduced to transaction order (bbolt serialises writers); GC "
                  "ticker / event goroutines are driven synchronously through hooks (removeGarbage, setEpochEventHandler called directly). "
                  "Fragment: objects without family relations (split/EC parents take the link-walk of processAddrDelete, not modelled); "
                  "write-cache disabled; read-write mode; no failing component calls. The theorems are stated for all states satisfying the "
                  "invariant `inv`; that every history of modelled operations reaches only such states is checked on each run (replay) but "
                  "proved in Coq only for the metabase well-formedness part (Meta/WfProofs.wf_run). Trusted: Coq kernel + vm_compute, the "
                  "hand-written model (tied), bbolt as an ordered map with atomic transactions, fstree as address->presence, Go harness, "
                  "Python driver; 61-bit digest per step.",
    "trusted_base": ["Coq 8.16.1 kernel, vm_compute", "models Meta/Model.v + GC/Model.v hand-written, tied by differential check",
                     "harness/cmd/gc, hooks zz_verif_gc_shard.go / zz_verif_gc_engine.go / zz_verif_meta.go, props/_gc.py, lib/vlib.py",
                     "bbolt modelled as an ordered map with atomic transactions; fstree as address -> presence"],
    "assumptions": ["objects without parent / split / EC fields (premise simple_obj, invariant inv)",
                    "expiration attributes are canonical decimal uint64", "engine with exactly one shard, no write-cache, read-write mode"],
}


def tiers(ctx):
    if ctx.tier == "quick":
        return [("lock", 40, 28, 0)]
    return [("lock", 400, 40, 0), ("drain", 60, 30, 2)]


def run(ctx):
    binp = ctx.go_build()
    ctx.prove()
    if not ctx.model_ready(G.MODEL_VO):
        ctx.tie(False)
        return
    if ctx.replay:
        rp = json.load(open(ctx.replay))
        jobs = [v["case"] for v in rp.get("violations", []) if "case" in v]
        hs = G.replay_harness(ctx, binp, jobs) if jobs else []
    else:
        hs = []
        for (profile, n, ln, drain) in tiers(ctx):
            hs += G.run_harness(ctx, binp, n, ln, profile, drain)
    res = G.evaluate(ctx, hs, chunk=max(1, (len(hs) + 3) // 4) if ctx.tier == "quick" else None)
    if res is None:
        ctx.tie(False)
        return
    model_bad = set(res["model"]) | G.dump_bad(hs)
    ref_bad = {x for x in res["ref"] if x[2] in C07_SECTIONS}
    ctx.tie(not model_bad)    # correspondence implementation = model (results, metabase dump, epochs, Get/IsLocked/blob)
    ctx.tie(not ref_bad)      # implementation satisfies the right-hand sides of the theorems

    first = {}
    for (h, k, sec) in sorted(model_bad | ref_bad):
        first.setdefault(h, (k, set()))
        if first[h][0] == k:
            first[h][1].add(sec)
    for h, (k, secs) in sorted(first.items())[:6]:
        case = {"lim": hs[h]["lim"], "ops": hs[h]["ops"][:k + 1], "drain": 0}
        if len(first) <= 3 and not ctx.replay:
            def failing(hs2):
                r = G.evaluate(ctx, hs2, chunk=max(1, (len(hs2) + 3) // 4))
                if r is None:
                    return [False] * len(hs2)
                bad = {x[0] for x in r["model"]} | {x[0] for x in r["ref"] if x[2] in C07_SECTIONS} | {x[0] for x in G.dump_bad(hs2)}
                return [i in bad for i in range(len(hs2))]
            try:
                hh = dict(hs[h]); hh["drain"] = len(hs[h]["ops"])
                case = G.minimise(ctx, binp, hh, k, failing, budget=3)
            except Exception as ex:
                ctx.notes.append("minimisation failed: %r" % (ex,))
        ctx.violation({"case": case, "history": h, "step": k,
                       "disagrees_on": [G.SECTIONS.get(s, s) for s in sorted(secs)],
                       "observed": G.summarize(hs[h], k)})
    coverage(ctx, hs)


def lock_shapes(o):
    """(targets with >= 2 stored associated objects, targets whose LOWEST-ID associated object is not a live lock
    while a higher-ID one is) in one observed state -- the situation in which "locked" is decided by an entry of the
    association index that is neither the first nor the only one."""
    multi = hidden = 0
    for c in o.get("cnrs", []):
        if not c.get("present") or c.get("cgc"):
            continue
        marked = {g[0] for g in c["garb"] if g[1] == 0}
        by = {}
        for x in sorted(c["objs"], key=lambda x: x["id"]):
            if x["as"]:
                live = x["t"] == 2 and (x["exp"] < 0 or x["exp"] >= o["epoch"]) and x["id"] not in marked
                by.setdefault(x["as"], []).append(live)
        for lives in by.values():
            if len(lives) >= 2:
                multi += 1
                if not lives[0] and any(lives[1:]):
                    hidden += 1
    return multi, hidden


def coverage(ctx, hs):
    steps = sum(len(h["steps"]) for h in hs)
    digests, nontrivial = set(), 0
    hist = {"locked_addresses": 0, "protected_expired": 0}
    shapes = {"states_with_a_target_of_2+_associated_objects": 0, "states_where_the_lowest_ID_associated_object_is_no_live_lock_but_a_higher_one_is": 0}
    res_hist = {}
    for h in hs:
        for op, st in zip(h["ops"], h["steps"]):
            o = st["obs"]
            if op["k"] == "put":
                key = "%s:%d" % (["regular", "tombstone", "lock", "link"][op["o"]["t"]], st["res"][0])
                res_hist[key] = res_hist.get(key, 0) + 1
            d = G.digest(o)
            if d in digests:
                continue
            digests.add(d)
            nl = sum(sum(r) for r in o["locked"])
            hist["locked_addresses"] += nl
            mu, hi = lock_shapes(o)
            shapes["states_with_a_target_of_2+_associated_objects"] += 1 if mu else 0
            shapes["states_where_the_lowest_ID_associated_object_is_no_live_lock_but_a_higher_one_is"] += 1 if hi else 0
            if nl and any(c["garb"] or c["cgc"] for c in o["cnrs"]):
                nontrivial += 1
    lims = {}
    for h in hs:
        lims[str(h["lim"])] = lims.get(str(h["lim"]), 0) + 1
    sample = hs[len(hs) // 3] if hs else None
    ctx.cov.update({
        "evaluations": steps,
        "distinct_nontrivial": nontrivial,
        "rule": "histories from one splitmix64 stream (VERIF_SEED) over 2 containers x 8 object IDs, headers fixed per ID within a history "
                "(regular / tombstone / lock with expirations 0-7 around the epochs the history passes), operations: Shard.Put, forced "
                "marks (default/redundant), container removal, epoch source changes, GC events (also lagging / repeated / older), GC passes "
                "with batch size 1-5 or 100; every fourth history opens with ONE target carrying three associated objects 3<5<7 of mixed "
                "liveness in both ID orders (live / expired-not-collected / garbage-marked / redundant-marked LOCK, non-LOCK with the "
                "association attribute), the epoch moved past the early expirations without a GC event, a tombstone attempt and "
                "(half of them) a GC event + pass; one evaluation = one operation followed by a full observation; distinct by digest; "
                "non-trivial = at least one locked address while some garbage mark or removed container exists",
        "histories": len(hs),
        "traces_validated_against_impl": len(hs),
        "op_histogram": G.op_hist(hs),
        "put_result_histogram(type:class 0 ok 1 removed 2 expired 3 locked 4 lock-non-regular 5 lock-removal 6 other)": res_hist,
        "batch_size_histogram": lims,
        "association_shapes(distinct observed states)": shapes,
        "samples": [{"lim": sample["lim"], "ops": sample["ops"][:6], "results": [s["res"] for s in sample["steps"][:6]],
                     "get_after_6": sample["steps"][min(5, len(sample["steps"]) - 1)]["obs"]["get"]}] if sample else [],
    })
