"""C06 — cursor listing yields each available physical object exactly once."""
import importlib.util
import json
import os

import vlib

_spec = importlib.util.spec_from_file_location("_meta", os.path.join(os.path.dirname(os.path.abspath(__file__)), "_meta.py"))
M = importlib.util.module_from_spec(_spec)
_spec.loader.exec_module(M)

META = {
    "id": "C06",
    "engine": "meta",
    "design_ref": "5/C06",
    "coq_targets": ["Props/Properties_C06.vo", "Meta/ListCheck.vo"],
    "coq_files": ["Gen/MetaConsts.v", "Meta/SMap.v", "Meta/Model.v", "Meta/Spec.v", "Meta/Check.v", "Meta/SMapProofs.v", "Meta/StatusProofs.v",
                  "Meta/WfProofs.v", "Meta/ListModel.v", "Meta/ListCheck.v", "Meta/ListProofs.v", "Meta/ListProofs2.v", "Meta/ListProofs3.v",
                  "Meta/ListEngine.v", "Props/Properties_C06.v"],
    "theorems": ["C06_any_cursor", "C06_next_cursor", "C06_shard_chain", "C06_shard_chain_from", "C06_no_duplicates",
                 "C06_never_lists_removed", "C06_engine_page", "C06_engine_chain", "C06_engine_reference"],
    "technique": "Coq proof about the Gallina model of listWithCursor / selectNFromBucket / iterPrefixedIDs (induction over the bucket list and "
                 "over the object IDs of a bucket; every reachable state is well formed by the invariant of C01) + differential correspondence: "
                 "real engine over 1-4 real shards, DB/Shard/StorageEngine.ListWithCursor pages compared with the model evaluated on the dumped "
                 "metabase content of every shard and with the declarative reference",
    "level_text": "Shard level (proved, all histories): for every state reachable by any history of metabase operations, every page size n and every "
                  "cursor, DB.ListWithCursor of the model returns exactly the first n objects of Spec.listed (physical, not tombstoned, no default "
                  "garbage mark, container not removed) after the cursor in (container, object) order (C06_any_cursor) and the returned cursor "
                  "resumes exactly after them (C06_next_cursor); hence for every sequence of page sizes >= 1 the concatenated pages from the nil "
                  "cursor are the listed objects in order, each once (C06_shard_chain, C06_no_duplicates), followed by end-of-listing; removed "
                  "objects and objects of removed containers are never listed (C06_never_lists_removed). Engine level (proved, all lists of shards "
                  "whose metabases are reachable states, all shard orders, all cursors, all page sizes): the model of "
                  "StorageEngine.ListWithCursor / mergeListResults (two-way merge, shard-ID append on equal addresses, truncation, engine cursor = "
                  "last merged address) returns the first n entries of the declarative reference eng_listed (C06_engine_page); any sequence of "
                  "page sizes >= 1 yields the reference in order, each entry once, then end-of-listing (C06_engine_chain); the reference is "
                  "strictly sorted by address, contains an address iff some shard lists it, with ShardIDs = exactly the listing shards "
                  "(C06_engine_reference). The engine model is compared with the real engine on every run.",
    "level_note": "The engine merge is a hand-written model (ListModel.merge_list_results / engine_list) tied differentially to the real engine "
                  "(model = real engine = reference on every generated configuration); the proof (Meta/ListEngine.v) is about that model. Premise of all "
                  "theorems (partial in this respect): no stored object has the all-zero ID (oids_pos; the Go code treats a zero lastObjectID as 'from the beginning', so a "
                  "zero-ID object would be listed forever; IDs are SHA-256 hashes) - stated as an explicit premise, not proved as an invariant of "
                  "histories with non-zero IDs. Container ID zero is assumed absent (Go skips such a bucket). Modelled, not verified: bbolt as an "
                  "ordered map (key order = numeric order of big-endian IDs), attributes of listed items (not projected), Shard.ListWithCursor's "
                  "mode check (degraded mode not exercised), the engine's shard order (an input of the model; observable holder lists are sorted), "
                  "shards that fail are modelled as returning nothing, "
                  "slice aliasing inside mergeListResults (buffers reused between merges) is exercised by the tie only.",
    "trusted_base": ["Coq 8.16.1 kernel, vm_compute", "model Meta/Model.v (view_list) and Meta/ListModel.v hand-written, tied by differential check",
                     "harness/cmd/meta/list.go, hooks zz_verif_list_*.go, zz_verif_meta.go, props/C06.py, props/_meta.py, lib/vlib.py",
                     "bbolt modelled as an ordered map"],
    "assumptions": ["no stored object / container has the all-zero ID", "one address has the same object type on every shard (IDs are header hashes)"],
}

PRELUDE = ("From Coq Require Import List NArith ZArith.\nImport ListNotations.\n"
           "From NV Require Import Meta.SMap Meta.Model Meta.Spec Meta.Check Meta.ListModel Meta.ListCheck.\nLocal Open Scope N_scope.\n")

KINDS = {0: "model pages differ", 1: "end-of-listing differs (model)", 2: "reference differs (listed objects after the cursor, each once, then end)",
         3: "duplicate address in the pages"}


def coq_query(q):
    pages = "[" + "; ".join("[" + "; ".join(M.nlist(it) for it in p) + "]" for p in q["pages"]) + "]"
    return "(mkLQ %s %d [%s]%%nat (%d, %d) %s %s)" % (
        vlib.coq_bool(q["level"] == "engine"), max(0, q["shard"] - 1), "; ".join(str(x) for x in q["sizes"]),
        q["cur"][0], q["cur"][1], pages, vlib.coq_bool(q["ended"]))


def coq_config(c):
    states = []
    for st in c["states"]:
        st = dict(st)
        st["epoch"] = 0
        states.append(M.nlist(M.enc_state(st)))
    return "(mkLC [%s] [%s])" % ("; ".join(states), ";\n ".join(coq_query(q) for q in c["queries"]))


def evaluate(ctx, cfgs):
    chunk = max(8, (len(cfgs) + vlib.NCPU - 1) // vlib.NCPU)
    jobs, offs = [], []
    for off in range(0, len(cfgs), chunk):
        part = cfgs[off:off + chunk]
        text = PRELUDE + "".join("Definition c%d : lconfig :=\n%s.\n" % (i, coq_config(c)) for i, c in enumerate(part))
        text += "Definition cases : list lconfig := [%s].\n" % "; ".join("c%d" % i for i in range(len(part)))
        jobs.append(("list", text, {"mm": "list_mismatches cases"}))
        offs.append(off)
    bad = []
    for off, res in zip(offs, ctx.coq_eval_many(jobs)):
        if res is None:
            return None
        for code in res["mm"]:
            kind = code % 10
            code //= 10
            bad.append((off + code // 1000, code % 1000, kind))
    return bad


def run(ctx):
    binp = ctx.go_build()
    M.gen_consts(ctx, binp)
    ctx.prove()
    if not ctx.model_ready(["Meta/ListCheck.vo"]):
        ctx.tie(False)
        return
    n = 48 if ctx.tier == "quick" else 1500
    if ctx.replay:
        rp = json.load(open(ctx.replay))
        cfgs = [v["config"] for v in rp.get("violations", []) if "config" in v]
        # configurations are regenerated from (seed, index): re-run the same indexes
        idx = sorted({c["i"] for c in cfgs})
        allc = ctx.run_json([binp, "list", str(max(idx) + 1 if idx else 0)], timeout=3000) if idx else []
        cfgs = [c for c in allc if c["i"] in idx]
    else:
        cfgs = ctx.run_json([binp, "list", str(n)], timeout=3000)
    bad = evaluate(ctx, cfgs)
    if bad is None:
        ctx.tie(False)
        return
    model_bad = [b for b in bad if b[2] in (0, 1)]
    ref_bad = [b for b in bad if b[2] in (2, 3)]
    ctx.tie(not model_bad)     # model = implementation (pages and end of listing, metabase / shard / engine)
    ctx.tie(not ref_bad)       # implementation = reference (each listed object once, in order, holders exact, then end)
    seen = set()
    for (ci, qi, kind) in sorted(bad):
        if (ci, qi) in seen or len(seen) >= 8:
            continue
        seen.add((ci, qi))
        c = cfgs[ci]
        q = c["queries"][qi]
        ctx.violation({"config": {"i": c["i"], "nshards": c["nshards"]}, "query": {k: q[k] for k in ("level", "shard", "sizes", "cur")},
                       "what": [KINDS[k] for (a, b, k) in bad if a == ci and b == qi],
                       "impl_pages": q["pages"], "impl_ended": q["ended"],
                       "shard_states": [[{k: cn[k] for k in ("c", "cgc", "objs", "garb")} for cn in st["cnrs"] if cn["present"]] for st in c["states"]]})
    nq = sum(len(c["queries"]) for c in cfgs)
    obs = [(q["level"], tuple(q["sizes"]), tuple(q["cur"]), json.dumps(q["pages"])) for c in cfgs for q in c["queries"]]
    nontriv = {o for o in obs if len(json.loads(o[3])) >= 2}
    hist = lambda f: {str(k): v for k, v in sorted(__import__("collections").Counter(f(c, q) for c in cfgs for q in c["queries"]).items())}
    multi = sum(1 for c in cfgs for q in c["queries"] if q["level"] == "engine" for p in q["pages"] for it in p if len(it) > 4)
    boundary = 0
    for c in cfgs:
        for q in c["queries"]:
            for a, b in zip(q["pages"], q["pages"][1:]):
                if a and b and a[-1][0] != b[0][0]:
                    boundary += 1
    sample = cfgs[len(cfgs) // 3] if cfgs else None
    ctx.cov.update({
        "evaluations": nq,
        "distinct_nontrivial": len(nontriv),
        "rule": "configurations from one splitmix64 stream (VERIF_SEED): 1-4 real shards in one real engine, 1-5 containers x 12 object IDs "
                "(1..9, 255, 256, 257, 300: byte order of big-endian keys), one catalog of headers so that copies overlap, per shard random "
                "subset + up to 9 operations (default/redundant garbage marks on stored and unstored IDs, tombstones and locks from the catalog, "
                "container inhume / delete, object delete, revive); 6-11 queries each: level metabase / shard / engine, 1-3 page sizes from "
                "{1..7, 100} cycled, start cursor nil or (container 0..n+1, object 0 | catalog ID | 0..309); one evaluation = one query followed to "
                "ErrEndOfListing, compared page by page with the model and as a whole with the reference; distinct non-trivial = distinct "
                "(level, sizes, cursor, pages) with at least two pages",
        "configurations": len(cfgs),
        "level_histogram": hist(lambda c, q: q["level"]),
        "shards_histogram": hist(lambda c, q: c["nshards"]),
        "pages_per_query_histogram": hist(lambda c, q: min(len(q["pages"]), 10)),
        "start_cursor_histogram": hist(lambda c, q: "nil" if q["cur"] == [0, 0] else ("container-start" if q["cur"][1] == 0 else "inside")),
        "items_with_several_holders": multi,
        "page_breaks_on_container_boundary": boundary,
        "samples": [{"nshards": sample["nshards"], "query": {k: sample["queries"][0][k] for k in ("level", "shard", "sizes", "cur", "pages", "ended")}}] if sample else [],
    })
